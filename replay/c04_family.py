"""C04 demo: every concrete execution of a method is a path in its control-flow graph.

Run as:  PYTHONPATH=<tree>/src /venv/bin/python demo.py
Prints PASS / exits 0 when the property holds, prints FAIL / exits 1 otherwise.

What it does
  * enumerates every method body with at most MAX_SIZE statements built from: assignment, if / if-else,
    while (condition `a` or `true`), for-in, loop `else:` clauses, break, continue, return
    (loops nested at most two deep), plus a few larger hand-written bodies;
  * lowers each body to GIR rows in the layout the Python frontend emits (method_decl, parameter block,
    body block, block_start/block_end pairs, then_body/else_body/body block ids), puts them in the real
    DataModel, takes the parameter and body blocks exactly as Loader.get_splitted_method_gir does
    (DataModel.read_block), wraps them in GIRBlockViewer and runs the real ControlFlowAnalysis.analyze();
  * runs a reference interpreter over the same body for every branch-decision vector (if taken / not taken,
    loop entered / left) and checks the statement of C04 on each execution:
      - the first executed statement is an entry node (in-degree 0),
      - whenever B executes immediately after A the graph has the edge A -> B,
      - an execution that leaves the method (return, fall-through, loop exit) ends with an edge to the exit node -1,
      - every break / continue is connected exactly to where its syntactic loop sends it,
      - the graph has no node that is not an executable statement of this method.

Two shapes are left out of the family because the UNCHANGED tree already mishandles them (unrelated to this seed):
a break/continue written directly in a loop's `else:` body (it belongs to the outer loop and is dropped), and
`while true: ... else: ...`.
"""
import builtins
import sys

builtins.profile = lambda f: f

from lian.basics.control_flow import ControlFlowAnalysis  # noqa: E402
from lian.util.data_model import DataModel  # noqa: E402
from lian.util.gir_block import GIRBlockViewer  # noqa: E402

EXIT = -1
NAN = float("nan")
MAX_SIZE = 4
MAX_DECISIONS = 6
MAX_STEPS = 40
COLUMNS = ["operation", "parent_stmt_id", "stmt_id", "name", "parameters", "body",
           "condition", "then_body", "else_body", "receiver", "target", "operand"]


class StubLoader:
    """The two Loader calls ControlFlowAnalysis.analyze() makes."""

    def __init__(self):
        self.saved = {}

    def get_method_cfg(self, method_id):
        return None

    def save_method_cfg(self, method_id, cfg):
        self.saved[method_id] = cfg


# ------------------------------------------------------------------ mini AST -> GIR
# ["s"]                               assignment
# ["if", then, else|None]
# ["while", cond, body, else|None]    cond is "a" or "true"
# ["forin", body, else|None]
# ["break"] ["continue"] ["return"]

class Lowering:
    def __init__(self, first_id=100):
        self.next_id = first_id
        self.rows = []
        self.kind = {}        # stmt_id -> operation, executable statements of the method only
        self.ids = {}         # id(ast node) -> stmt_id

    def new_id(self):
        self.next_id += 1
        return self.next_id

    def row(self, operation, parent, stmt_id, **fields):
        r = {c: NAN for c in COLUMNS}
        r.update(operation=operation, parent_stmt_id=parent, stmt_id=stmt_id)
        r.update(fields)
        self.rows.append(r)
        return r

    def block(self, parent, stmts):
        bid = self.new_id()
        self.row("block_start", parent, bid)
        for s in stmts:
            self.stmt(bid, s)
        self.row("block_end", parent, bid)
        return bid

    def executable(self, node, operation, parent, **fields):
        sid = self.new_id()
        self.kind[sid] = operation
        self.ids[id(node)] = sid
        return sid, self.row(operation, parent, sid, **fields)

    def stmt(self, parent, node):
        tag = node[0]
        if tag == "s":
            self.executable(node, "assign_stmt", parent, target="x", operand="1")
        elif tag == "break":
            self.executable(node, "break_stmt", parent, name="")
        elif tag == "continue":
            self.executable(node, "continue_stmt", parent, name="")
        elif tag == "return":
            self.executable(node, "return_stmt", parent, name="x")
        elif tag == "if":
            sid, r = self.executable(node, "if_stmt", parent, condition="c")
            r["then_body"] = self.block(sid, node[1])
            if node[2] is not None:
                r["else_body"] = self.block(sid, node[2])
        elif tag == "while":
            sid, r = self.executable(node, "while_stmt", parent, condition=node[1])
            r["body"] = self.block(sid, node[2])
            if node[3] is not None:
                r["else_body"] = self.block(sid, node[3])
        elif tag == "forin":
            sid, r = self.executable(node, "forin_stmt", parent, name="i", receiver="a")
            r["body"] = self.block(sid, node[1])
            if node[2] is not None:
                r["else_body"] = self.block(sid, node[2])
        else:
            raise ValueError(tag)

    def method(self, body):
        mid = self.new_id()
        decl = self.row("method_decl", 0, mid, name="f")
        pid = self.new_id()
        self.row("block_start", mid, pid)
        param = self.new_id()
        self.kind[param] = "parameter_decl"
        self.row("parameter_decl", pid, param, name="a")
        self.row("block_end", mid, pid)
        decl["parameters"] = pid
        decl["body"] = self.block(mid, body)
        return mid, pid, decl["body"], param


def build_cfg(body):
    low = Lowering()
    mid, pid, bid, param = low.method(body)
    unit_gir = DataModel(low.rows, columns=COLUMNS)
    parameter_decls = GIRBlockViewer(unit_gir.read_block(pid))
    method_body = GIRBlockViewer(unit_gir.read_block(bid))
    graph = ControlFlowAnalysis(StubLoader(), mid, parameter_decls, method_body).analyze()
    return low, param, graph


# ------------------------------------------------------------------ reference executions
class OutOfDecisions(Exception):
    pass


class StepLimit(Exception):
    pass


class Break(Exception):
    pass


class Continue(Exception):
    pass


class Return(Exception):
    pass


class Run:
    def __init__(self, low, decisions):
        self.low = low
        self.decisions = decisions
        self.used = 0
        self.trace = []

    def decide(self):
        if self.used >= len(self.decisions):
            raise OutOfDecisions()
        self.used += 1
        return self.decisions[self.used - 1]

    def visit(self, node):
        if len(self.trace) >= MAX_STEPS:
            raise StepLimit()
        self.trace.append(self.low.ids[id(node)])

    def block(self, stmts):
        for s in stmts:
            self.stmt(s)

    def stmt(self, node):
        tag = node[0]
        if tag == "s":
            self.visit(node)
        elif tag == "break":
            self.visit(node)
            raise Break()
        elif tag == "continue":
            self.visit(node)
            raise Continue()
        elif tag == "return":
            self.visit(node)
            raise Return()
        elif tag == "if":
            self.visit(node)
            if self.decide():
                self.block(node[1])
            elif node[2] is not None:
                self.block(node[2])
        else:
            if tag == "while":
                cond, body, orelse = node[1], node[2], node[3]
            else:
                cond, body, orelse = "a", node[1], node[2]
            while True:
                self.visit(node)                       # the loop header is evaluated
                if cond != "true" and not self.decide():
                    if orelse is not None:
                        self.block(orelse)
                    return
                try:
                    self.block(body)
                except Break:
                    return
                except Continue:
                    pass


def executions(low, param, body):
    """(trace, finished) for every branch-decision vector of length <= MAX_DECISIONS."""
    out = []
    stack = [()]
    while stack:
        decisions = stack.pop()
        run = Run(low, decisions)
        run.trace.append(param)
        finished = True
        try:
            run.block(body)
        except Return:
            pass
        except StepLimit:
            out.append((run.trace, False))
            continue
        except OutOfDecisions:
            finished = False
        out.append((run.trace, finished))
        if not finished and len(decisions) < MAX_DECISIONS:
            stack.append(decisions + (True,))
            stack.append(decisions + (False,))
    return out


def fresh(x):
    """Copy an AST so that every node is a distinct list object."""
    if isinstance(x, (tuple, list)) and x and isinstance(x[0], str):
        return [x[0]] + [fresh(y) for y in x[1:]]
    if isinstance(x, list):
        return [fresh(y) for y in x]
    return x


def check_program(body):
    body = fresh(body)
    low, param, graph = build_cfg(body)
    nodes = set(graph.nodes())
    errors = []

    foreign = sorted(n for n in nodes if n != EXIT and n not in low.kind)
    if foreign:
        errors.append("the CFG has nodes that are not executable statements of the method: %s" % foreign)

    def name(s):
        return "%d(%s)" % (s, low.kind[s])

    jump_targets = {}
    for trace, finished in executions(low, param, body):
        first = trace[0]
        if first not in nodes or graph.in_degree(first) != 0:
            errors.append("the first executed statement %s is not an entry node" % name(first))
        for a, b in zip(trace, trace[1:]):
            if not graph.has_edge(a, b):
                errors.append("%s is executed immediately after %s but the CFG has no edge %d -> %d"
                              % (name(b), name(a), a, b))
            if low.kind[a] in ("break_stmt", "continue_stmt"):
                jump_targets.setdefault(a, set()).add(b)
        if finished:
            last = trace[-1]
            if not graph.has_edge(last, EXIT):
                errors.append("an execution leaves the method after %s but the CFG has no edge %d -> -1 (exit)"
                              % (name(last), last))
            if low.kind[last] in ("break_stmt", "continue_stmt"):
                jump_targets.setdefault(last, set()).add(EXIT)
    for jump, want in sorted(jump_targets.items()):
        got = set(graph.successors(jump)) if jump in nodes else set()
        if got != want:
            errors.append("%s is connected to %s, its loop sends it to %s" % (name(jump), sorted(got), sorted(want)))
    return graph, sorted(set(errors))


# ------------------------------------------------------------------ program family
def gen_block(size, depth, in_loop):
    """Every statement list with exactly `size` AST nodes; a jump is always the last statement of its list."""
    if size == 0:
        yield []
        return
    for first_size in range(1, size + 1):
        for first in gen_stmt(first_size, depth, in_loop):
            if first[0] in ("break", "continue", "return"):
                if first_size == size:
                    yield [first]
                continue
            for rest in gen_block(size - first_size, depth, in_loop):
                yield [first] + rest


def gen_stmt(size, depth, in_loop):
    if size == 1:
        yield ("s",)
        yield ("return",)
        if in_loop:
            yield ("break",)
            yield ("continue",)
        return
    inner = size - 1
    for then in gen_block(inner, depth, in_loop):
        yield ("if", then, None)
    for k in range(1, inner):
        for then in gen_block(k, depth, in_loop):
            for orelse in gen_block(inner - k, depth, in_loop):
                yield ("if", then, orelse)
    if depth > 0:
        for body in gen_block(inner, depth - 1, True):
            yield ("while", "a", body, None)
            yield ("while", "true", body, None)
            yield ("forin", body, None)
        for k in range(1, inner):
            for body in gen_block(k, depth - 1, True):
                for orelse in gen_block(inner - k, depth - 1, False):
                    yield ("while", "a", body, orelse)
                    yield ("forin", body, orelse)


S, BRK, CNT, RET = ("s",), ("break",), ("continue",), ("return",)

HAND_WRITTEN = [
    # search loop: two ways out of the loop, `else:` for "not found"
    [S, ("while", "a", [("if", [BRK], None), ("if", [BRK], None), S], [S]), RET],
    # the same inside an outer for-in, with a continue and an outer break
    [("forin", [("if", [CNT], None),
                ("while", "a", [("if", [BRK], None), S], [S]),
                ("if", [BRK], None),
                S], None),
     S],
    # nested loops, inner break / continue, outer endless loop left by break
    [("while", "true", [("forin", [("if", [CNT], [("if", [BRK], None)]), S], None),
                        ("if", [BRK], None)], None),
     RET],
    # loop-else whose body only continues / returns
    [("forin", [("if", [CNT], None), ("if", [RET], None), S], [S]), S],
    # if/else ladders around loops
    [("if", [("while", "a", [S, ("if", [BRK], [CNT])], None)], [("forin", [S], None), RET]), S],
]


def show(body, indent=1):
    pad = "    " * indent
    lines = []
    for n in body:
        if n[0] == "s":
            lines.append(pad + "x = 1")
        elif n[0] in ("break", "continue", "return"):
            lines.append(pad + n[0])
        elif n[0] == "if":
            lines.append(pad + "if c:")
            lines += show(n[1], indent + 1)
            if n[2] is not None:
                lines.append(pad + "else:")
                lines += show(n[2], indent + 1)
        else:
            if n[0] == "while":
                lines.append(pad + "while %s:" % n[1])
                loop_body, orelse = n[2], n[3]
            else:
                lines.append(pad + "for i in a:")
                loop_body, orelse = n[1], n[2]
            lines += show(loop_body, indent + 1)
            if orelse is not None:
                lines.append(pad + "else:")
                lines += show(orelse, indent + 1)
    return lines


def main():
    programs = []
    for size in range(1, MAX_SIZE + 1):
        programs.extend(gen_block(size, 2, False))
    programs.extend(HAND_WRITTEN)

    failures = []
    for body in programs:
        graph, errors = check_program(body)
        if errors:
            failures.append((body, graph, errors))

    if failures:
        print("FAIL (%d of %d method bodies have an execution that is not a path of the CFG)"
              % (len(failures), len(programs)))
        for body, graph, errors in failures[:3]:
            print("  def f(a):")
            for line in show(body):
                print("  " + line)
            for e in errors:
                print("    -> " + e)
            print("    CFG edges: %s" % sorted(graph.edges()))
        return 1
    print("PASS (%d method bodies: every execution is a path of the CFG, jumps reach their own loop)" % len(programs))
    return 0


if __name__ == "__main__":
    sys.exit(main())
