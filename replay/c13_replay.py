"""C13 replay / witness search on the real bounding mechanisms (no whole-pipeline timing: that is testing, not part of the verdict).

  analyze_stmts        real P2PrelimSemanticAnalysis.analyze_stmts + real SimpleWorkList on small cyclic CFGs; the four analysis steps are stubs that
                       always report change: every statement must be analysed at most `bound` times, the loop must end
  complete_in_states   real prefix: at the round bound the answer is False (True for a parameter declaration)
  compute_target       real GlobalStmtStates.compute_target_method_states called over and over for the same call sites with the done-table kept empty:
                       a callee may be selected at most MAX_ANALYSIS_ROUND_FOR_CALL_SITE + 1 times per site, also across frames sharing the counter table
  SimpleWorkList       add/pop/peek sequences against a set model
"""
import itertools
import sys
import types
import common

import networkx as nx
from lian.config import config
from lian.common_structs import SimpleWorkList, SimpleSet, ComputeFrame, P2ResultFlag, CallSite, CallPath, PathManager


class Budget(Exception):
    pass


def run_analyze_stmts(edges, nodes, max_round, priority, flags=(False, False), start_counter=0):
    from lian.core.prelim_semantics import P2PrelimSemanticAnalysis
    g = nx.DiGraph()
    g.add_nodes_from(nodes)
    g.add_edges_from(edges)
    self_ = object.__new__(P2PrelimSemanticAnalysis)
    self_.max_analysis_round = max_round
    self_.options = types.SimpleNamespace(debug=False, quiet=True)
    visits = {}
    steps = [0]

    def compute(stmt_id, stmt, frame):
        visits[stmt_id] = visits.get(stmt_id, 0) + 1
        steps[0] += 1
        if steps[0] > 5000:
            raise Budget()
        return P2ResultFlag(symbol_def_changed=flags[0], symbol_use_changed=flags[1])
    self_.compute_stmt_states = compute
    self_.analyze_reachable_symbols = lambda *a: None
    self_.rerun_analyze_reachable_symbols = lambda *a: None
    self_.update_method_def_use_summary = lambda *a: None
    fr = types.SimpleNamespace()
    fr.cfg = g
    fr.stmt_worklist = SimpleWorkList(graph=g if priority else None, entry_node=nodes[0] if priority else None)
    fr.stmt_worklist.add(nodes[0])
    fr.stmt_counters = {n: start_counter for n in nodes}
    fr.loop_total_rounds = {}
    fr.is_first_round = {n: True for n in nodes}
    fr.stmts_with_symbol_update = SimpleSet()
    fr.interruption_flag = False
    fr.method_id = 1
    fr.unit_gir = types.SimpleNamespace(get_stmt_by_id=lambda i: types.SimpleNamespace(operation='assign_stmt'))
    before = dict(fr.stmt_counters)
    try:
        self_.analyze_stmts(fr)
    except Budget:
        return 'visit-bound', f'analysis did not stop within 5000 statement visits (visits per statement: {visits})'
    bound = max(max_round - start_counter, 0)
    for n, v in visits.items():
        if v > bound:
            return 'visit-bound', f'statement {n} analysed {v} times, bound {bound} (max round {max_round}, counter started at {start_counter})'
        if fr.stmt_counters[n] != before[n] + v:
            return 'counter-increments', f'statement {n}: {v} completed visits but counter went {before[n]} -> {fr.stmt_counters[n]}'
    for n in nodes:
        if fr.stmt_counters[n] < before[n]:
            return 'counters-never-decrease', f'statement {n}: counter {before[n]} -> {fr.stmt_counters[n]}'
    return None


GRAPHS = [
    ([(1, 1)], [1]),
    ([(1, 2), (2, 1)], [1, 2]),
    ([(1, 2), (2, 3), (3, 1), (3, 2)], [1, 2, 3]),
    ([(1, 2), (1, 3), (2, 4), (3, 4), (4, 1)], [1, 2, 3, 4]),
    ([(1, 2), (2, 2), (2, 3), (3, 3), (3, 1)], [1, 2, 3]),
]


def search_analyze_stmts():
    wit, cases = [], 0
    for (edges, nodes), mr, prio, flags, sc in itertools.product(GRAPHS, (0, 1, 3), (False, True), ((False, False), (True, True)), (0, 1)):
        cases += 1
        try:
            r = run_analyze_stmts(edges, nodes, mr, prio, flags, sc)
        except Exception as e:
            r = ('safety', f'exception {e!r}')
        if r:
            wit.append(dict(function='P2PrelimSemanticAnalysis.analyze_stmts', input=dict(edges=edges, nodes=nodes, max_round=mr, priority=prio, flags=flags, start_counter=sc),
                            observed=r[1], clauses=[r[0], 'visit-bound', 'counter-increments', 'counters-never-decrease', 'counters-only-grow']))
            if len(wit) >= 3:
                break
    return wit, cases


def run_continue_flag(op, counter, max_round):
    from lian.core.prelim_semantics import P2PrelimSemanticAnalysis
    self_ = object.__new__(P2PrelimSemanticAnalysis)
    self_.max_analysis_round = max_round
    self_.analysis_phase_id = 2
    fr = types.SimpleNamespace(stmt_counters={5: counter}, is_first_round={5: False}, symbol_state_space=[])
    status = types.SimpleNamespace(used_symbols=[], implicitly_used_symbols=[])
    try:
        got = self_.complete_in_states_and_check_continue_flag(5, fr, types.SimpleNamespace(operation=op), status, {}, types.SimpleNamespace(used_external_symbols={}))
    except Exception as e:
        # the stubbed tail of the function (beyond the verified prefix) may fail; reaching it at all is what matters
        return f'counter {counter} >= bound {max_round} but the in-state completion was entered ({e!r})' if (counter >= max_round and op != 'parameter_decl') else None
    if op == 'parameter_decl':
        return None if got is True else f'parameter_decl: answer {got!r}'
    if counter >= max_round and got is not False:
        return f'counter {counter} >= bound {max_round} but the answer is {got!r}'
    return None


def search_continue_flag():
    wit, cases = [], 0
    for op, cnt, mr in itertools.product(('assign_stmt', 'parameter_decl', 'call_stmt'), (0, 1, 2, 3, 4), (0, 1, 3)):
        cases += 1
        r = run_continue_flag(op, cnt, mr)
        if r:
            wit.append(dict(function='P2PrelimSemanticAnalysis.complete_in_states_and_check_continue_flag', input=dict(operation=op, counter=cnt, max_round=mr), observed=r,
                            clauses=['the-in-state-completion-is-reached-only-below-the-round-bound']))
            if len(wit) >= 2:
                break
    return wit, cases


def make_gss(counter, call_path, method_id=10):
    from lian.core.global_stmt_states import GlobalStmtStates
    self_ = object.__new__(GlobalStmtStates)
    self_.frame = types.SimpleNamespace(method_id=method_id, call_path=call_path, content_already_analyzed={}, call_site_analyze_counter=counter, symbol_state_space=[types.SimpleNamespace(states=[])] * 4)
    self_.path_manager = PathManager()
    self_.resolver = types.SimpleNamespace(recover_callee_name=lambda *a: 'f')
    self_.caller_unknown_callee_edge = {}
    self_.loader = types.SimpleNamespace(get_method_summary_instance=lambda h: None)
    self_.prepare_parameters = lambda cid: []
    self_.map_arguments = lambda *a: None
    self_.is_state_a_class_decl = lambda s: False
    return self_


def run_compute_target(callees, rounds, frames):
    """the same call statement is re-analysed `rounds` times in each of `frames` frames created through the real ComputeFrame constructor sharing one table"""
    shared = {}
    selected = {}
    limit = config.MAX_ANALYSIS_ROUND_FOR_CALL_SITE
    status = types.SimpleNamespace(used_symbols=[0])
    for f in range(frames):
        cf = ComputeFrame(method_id=10, call_site_analyze_counter=shared)
        if cf.call_site_analyze_counter is not shared:
            return 'the-counter-table-is-still-the-frame\'s-shared-one', 'ComputeFrame does not keep the counter table it is given (a new table per frame resets every call-site counter)'
        gs = make_gss(cf.call_site_analyze_counter, CallPath())
        for r in range(rounds):
            before = dict(gs.frame.call_site_analyze_counter)
            try:
                res = gs.compute_target_method_states(7, None, status, {}, list(callees), None, types.SimpleNamespace(positional_args=[], named_args={}))
            except Exception as e:
                return 'safety', f'exception {e!r}'
            after = gs.frame.call_site_analyze_counter
            for k, v in before.items():
                if after.get(k, 0) < v:
                    return 'call-site-counters-never-decrease', f'{k}: {v} -> {after.get(k, 0)}'
            if getattr(res, 'interruption_flag', False):
                ids = res.interruption_data.callee_ids
                for cid in sorted(set(ids)):
                    site = CallSite(10, 7, cid)
                    k = ids.count(cid)
                    selected[site] = selected.get(site, 0) + k
                    if before.get(site, 0) + k - 1 > limit:
                        return 'descent-bound', f'callee {cid} selected with call-site counter {before.get(site, 0) + k - 1} > limit {limit}'
                    if after.get(site, 0) != before.get(site, 0) + k:
                        return 'descent-bound', f'callee {cid} selected {k} time(s) but its counter went {before.get(site, 0)} -> {after.get(site, 0)}'
    for site, n in selected.items():
        if n > limit + 1:
            return 'descent-bound', f'{site} selected {n} times, limit {limit} + 1'
    return None


def search_compute_target():
    wit, cases = [], 0
    for callees, rounds, frames in itertools.product(([20], [20, 21], [10], [20, 20]), (1, 4, 12), (1, 3)):
        cases += 1
        r = run_compute_target(callees, rounds, frames)
        if r:
            wit.append(dict(function='GlobalStmtStates.compute_target_method_states', input=dict(callees=callees, rounds=rounds, frames=frames), observed=r[1],
                            clauses=[r[0], 'descent-bound', 'static']))
            if len(wit) >= 2:
                break
    return wit, cases


def search_worklist():
    wit, cases = [], 0
    g = nx.DiGraph([(1, 2), (2, 3), (3, 1), (1, 4)])
    for prio in (False, True):
        for ops in itertools.product([('add', 1), ('add', 2), ('add', [3, 1, 4]), ('pop',), ('peek',)], repeat=5):
            cases += 1
            w = SimpleWorkList(graph=g if prio else None, entry_node=1 if prio else None)
            model = set()
            try:
                for op in ops:
                    if op[0] == 'add':
                        w.add(op[1])
                        model |= set(op[1]) if isinstance(op[1], list) else {op[1]}
                    elif op[0] == 'pop':
                        first = w.peek()
                        x = w.pop()
                        if x != first:
                            raise AssertionError(f'pop returned {x}, peek {first}')
                        model.discard(x)
                    items = [e[1] if isinstance(e, tuple) else e for e in w.work_list]
                    if sorted(items) != sorted(model) or set(items) != w.all_data or len(w) != len(model):
                        raise AssertionError(f'queue {w.work_list}, all_data {w.all_data}, expected items {sorted(model)}')
            except Exception as e:
                wit.append(dict(function='SimpleWorkList.add', input=dict(priority=prio, ops=[list(o) for o in ops]), observed=repr(e), clauses=['queue-invariant', 'queued-once', 'removes-the-first-entry']))
                if len(wit) >= 2:
                    return wit, cases
    return wit, cases


def run_taint_worklist(shape):
    """real PathFinder.propagate_taint on a small state flow graph; the number of statement visits must stay within 4(|V|+|E|)+16"""
    import networkx as nx2
    from lian.taint.taint_analysis import PathFinder
    from lian.taint.taint_structs import TaintEnv
    from lian.common_structs import SFGNode, SFGEdge
    from lian.config.constants import SFG_NODE_KIND as NK, SFG_EDGE_KIND as EK
    g = nx2.DiGraph()
    p = SFGNode(node_type=NK.SYMBOL, def_stmt_id=1, node_id=1, name='p', index=1)
    prev = p
    n_calls = shape
    for i in range(n_calls):
        stmt = SFGNode(node_type=NK.STMT, def_stmt_id=10 + i, node_id=10 + i, name='object_call_stmt')
        tgt = SFGNode(node_type=NK.SYMBOL, def_stmt_id=10 + i, node_id=100 + i, name=f'v{i}', index=10 + i)
        g.add_edge(prev, stmt, weight=SFGEdge(edge_type=EK.SYMBOL_IS_USED, stmt_id=10 + i, pos=0))
        g.add_edge(stmt, tgt, weight=SFGEdge(edge_type=EK.SYMBOL_IS_DEFINED, stmt_id=10 + i))
        prev = tgt
    visits = [0]
    bound = 4 * (g.number_of_nodes() + g.number_of_edges()) + 16

    def props(u):
        visits[0] += 1
        if visits[0] > 25 * bound:
            raise Budget()
        return True
    pf = object.__new__(PathFinder)
    pf.ta = types.SimpleNamespace(sfg=g, taint_manager=TaintEnv(), rule_applier=types.SimpleNamespace(apply_propagation_rules=props))
    try:
        pf.propagate_taint(p)
    except Budget:
        return 'taint-worklist', f'{n_calls} chained method calls on a tainted receiver: more than {25 * bound} statement visits (bound {bound}): the worklist does not drain'
    if visits[0] > bound:
        return 'taint-worklist', f'{visits[0]} statement visits, bound {bound}'
    return None


def search_taint_worklist():
    wit, cases = [], 0
    for n in (1, 2, 4):
        cases += 1
        try:
            r = run_taint_worklist(n)
        except Exception as e:
            r = ('safety', f'exception {e!r}')
        if r:
            wit.append(dict(function='PathFinder._propagate_from_stmt', input=dict(chained_calls=n), observed=r[1], clauses=[r[0], 'taint-worklist', 'frame', 'iterated']))
            break
    return wit, cases


SEARCHES = {'_propagate_from_stmt': search_taint_worklist, 'propagate_taint': search_taint_worklist, '_propagate_from_symbol': search_taint_worklist, '_propagate_from_state': search_taint_worklist,
            '_enqueue': search_taint_worklist, 'analyze_stmts': search_analyze_stmts, 'complete_in_states_and_check_continue_flag': search_continue_flag,
            'compute_target_method_states': search_compute_target, 'SimpleWorkList': search_worklist}


def search(target, models):
    wit, cases, ran = [], 0, []
    fn = target.split('.')[-1]
    order = [k for k in SEARCHES if k == fn or target.startswith(k)] or list(SEARCHES)
    for k in order + [k for k in SEARCHES if k not in order and target in ('*', 'static')]:
        w, c = SEARCHES[k]()
        wit += w
        cases += c
        ran.append(k)
    return dict(witnesses=wit[:4], searched=f'{cases} cases ({", ".join(ran)}): cyclic CFGs x round bounds x queue kinds; repeated re-analysis of one call statement over frames sharing the counter table',
                how='real analyze_stmts / compute_target_method_states / SimpleWorkList / ComputeFrame with the analysis steps stubbed to always report change')


def replay(w):
    f = w.get('function', '') if isinstance(w, dict) else ''
    i = w.get('input') if isinstance(w, dict) else None
    try:
        if f.endswith('analyze_stmts') and i:
            r = run_analyze_stmts([tuple(e) for e in i['edges']], i['nodes'], i['max_round'], i['priority'], tuple(i['flags']), i['start_counter'])
            return dict(reproduced=bool(r), detail=r)
        if f.endswith('compute_target_method_states') and i:
            r = run_compute_target(i['callees'], i['rounds'], i['frames'])
            return dict(reproduced=bool(r), detail=r)
    except Exception as e:
        return dict(reproduced=True, detail=repr(e))
    out = search('*', [])
    return dict(reproduced=bool(out['witnesses']), detail=out['witnesses'][:1])


if __name__ == '__main__':
    common.main(search, replay)
