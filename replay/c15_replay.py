"""C15 replay / witness search / bounded stand-in on the real loaders (util/loader.py, util/util.py).  Small scope; replay aid + the
BOUNDED stand-in for what the proofs assume (subclass hooks round trip through a real bundle file, LRU list well-formedness)."""
import itertools
import os
import shutil
import sys
import tempfile
import common

from lian.config import config
from lian.util import util
from lian.util.loader import GeneralLoader, OneToManyMapLoader


class L(GeneralLoader):
    """a minimal concrete loader: rows tagged with the id (what every real subclass does)"""
    def flatten_item_when_saving(self, _id, c):
        return [{'unit_id': _id, 'v': x} for x in c]

    def query_flattened_item_when_loading(self, _id, b):
        return b.query_index_column_value('unit_id', _id)

    def unflatten_item_dataframe_when_loading(self, _id, df):
        return [int(r.v) for r in df]


def run_history(ops, icap, bcap, max_rows):
    d = tempfile.mkdtemp(prefix='c15replay')
    old = config.MAX_ROWS
    config.MAX_ROWS = max_rows
    try:
        l = L(None, ['unit_id', 'v'], os.path.join(d, 'x'), icap, bcap)
        latest = {}
        for k, op in enumerate(ops, 1):
            if op[0] == 'save':
                l.save(op[1], list(op[2]))
                latest[op[1]] = list(op[2])
            elif op[0] == 'export':
                l.export()
            else:
                got = l.get_item_by_id(op[1])
                want = latest.get(op[1])
                norm = None if got is None else ([] if isinstance(got, list) and not got else list(got))
                if (want is None and got is not None) or (want is not None and (norm or []) != want):
                    return 'the-content-most-recently-saved-for-that-id,-None-for-an-unknown-id', f'step {k}: get({op[1]}) = {got}, last saved = {want}'
        return None
    except Exception as e:
        return 'safety', f'exception {e!r}'
    finally:
        config.MAX_ROWS = old
        shutil.rmtree(d, ignore_errors=True)


ALPHABET = [('save', 1, (10,)), ('save', 1, (20, 21)), ('save', 2, (30,)), ('get', 1), ('get', 2), ('export',)]


# longer directed histories (beyond the exhaustive depth): several exports of one loader, re-saves between exports, several bundles of one export
S1, S1b, S2, S3, G1, G2, G3, EX = (('save', 1, (10,)), ('save', 1, (20, 21)), ('save', 2, (30,)), ('save', 3, (40, 41, 42)), ('get', 1), ('get', 2), ('get', 3), ('export',))
DIRECTED = [
    (S1, EX, S1b, EX, G1), (S1, EX, S2, EX, G2, G1), (S1, EX, S2, EX, G1, G2), (S1, S2, EX, S1b, EX, G2, G1), (S1, EX, S1b, EX, S2, EX, G1, G2),
    (S1, S2, S3, EX, G3, G1, G2), (S1, S2, S3, EX, G1, G2, G3), (S3, EX, S1, S2, EX, G3, G2, G1), (S1, EX, G1, S1b, EX, G1), (S1, S2, EX, G1, S3, EX, G3, G1, G2),
]


def search_loader(depth):
    wit, cases = [], 0
    for ops in DIRECTED:
        for icap, bcap, mr in ((1, 1, 1), (1, 2, 10 ** 6), (1, 2, 3), (1, 3, 2), (2, 2, 10 ** 6), (3, 3, 3)):
            cases += 1
            r = run_history(ops, icap, bcap, mr)
            if r:
                wit.append(dict(function='GeneralLoader.export', input=dict(ops=[list(o) for o in ops], item_cache=icap, bundle_cache=bcap, max_rows=mr),
                                observed=r[1], clauses=[r[0], 'loader-invariant']))
                if len(wit) >= 2:
                    return wit, cases
    for n in range(1, depth + 1):
        for ops in itertools.product(ALPHABET, repeat=n):
            if n >= 4 and not any(o[0] == 'get' for o in ops[1:-1] + (ops[-1],)):
                continue
            if ops[-1][0] != 'get':
                continue
            for icap, bcap, mr in ((1, 1, 1), (2, 2, 10 ** 6)):
                cases += 1
                r = run_history(ops, icap, bcap, mr)
                if r:
                    wit.append(dict(function='GeneralLoader.save', input=dict(ops=[list(o) for o in ops], item_cache=icap, bundle_cache=bcap, max_rows=mr),
                                    observed=r[1], clauses=[r[0], 'loader-invariant', 'this-content-is-now-the-latest']))
                    if len(wit) >= 3:
                        return wit, cases
    return wit, cases


def search_restore():
    """a fresh loader restored from the exported index must not reuse a bundle id that is still in use: save a; export; save a; save b; export; export_indexing;
    RESTORE in a fresh loader; save c; export; read everything"""
    wit, cases = [], 0
    for icap, bcap in ((1, 1), (2, 2)):
        cases += 1
        d = tempfile.mkdtemp(prefix='c15restore')
        try:
            mk = lambda: L(None, ['unit_id', 'v'], os.path.join(d, 'x'), icap, bcap)
            l1 = mk()
            l1.save(1, [10]); l1.export(); l1.save(1, [11]); l1.save(2, [20]); l1.export(); l1.export_indexing()
            l2 = mk()
            l2.restore_indexing()
            l2.save(3, [30]); l2.export()
            got = {k: l2.get_item_by_id(k) for k in (1, 2, 3)}
            want = {1: [11], 2: [20], 3: [30]}
            bad = {k: (list(got[k]) if got[k] is not None else None) for k in want if (list(got[k]) if got[k] is not None else None) != want[k]}
            if bad:
                wit.append(dict(function='GeneralLoader.restore_indexing', input='save(1,[10]); export; save(1,[11]); save(2,[20]); export; export_indexing; fresh loader: restore_indexing; save(3,[30]); export; get 1,2,3',
                                observed=f'reads after the restore {bad}, last saved {want}', clauses=['after-restoring', 'index-entries-point-below', 'the-bundle-count']))
        except Exception as e:
            wit.append(dict(function='GeneralLoader.restore_indexing', input='restore history', observed=f'exception {e!r}', clauses=['safety']))
        finally:
            shutil.rmtree(d, ignore_errors=True)
    return wit[:1], cases


def search_lru():
    wit, cases = [], 0
    for cap in (0, 1, 2):
        for ops in itertools.product([('put', 1, 'a'), ('put', 1, 'b'), ('put', 2, 'c'), ('put', 3, 'd'), ('get', 1), ('get', 2), ('remove', 1), ('remove', 3)], repeat=4):
            cases += 1
            c = util.LRUCache(cap)
            model = {}
            try:
                for op in ops:
                    if op[0] == 'put':
                        c.put(op[1], op[2]); model[op[1]] = op[2]
                    elif op[0] == 'remove':
                        c.remove(op[1]); model.pop(op[1], None)
                    else:
                        g = c.get(op[1])
                        if g is not None and model.get(op[1]) != g:
                            raise AssertionError(f'get({op[1]}) = {g}, last put = {model.get(op[1])}')
                    for k in list(model):
                        if not c.contain(k):
                            model.pop(k)          # evicted
                    if len(c.cache) > max(cap, 0) or any(k not in model for k in c.cache):
                        raise AssertionError(f'cache holds {list(c.cache)}, capacity {cap}, model {model}')
            except Exception as e:
                wit.append(dict(function='LRUCache.put', input=dict(capacity=cap, ops=[list(o) for o in ops]), observed=repr(e),
                                clauses=['no-other-key-appears-or-changes', 'the-value-last-put-for-the-key,-or-None', 'safety']))
                if len(wit) >= 2:
                    return wit, cases
    return wit, cases


def search_one_to_many():
    wit = []
    m = OneToManyMapLoader('/nonexistent', ['a', 'b'])
    m.save(1, [5, 6]); m.save(2, {7})
    if m.convert_one_to_many(1) != [5, 6] or m.convert_one_to_many(2) != [7] or m.convert_many_to_one(6) != 1 or m.convert_many_to_one(7) != 2 \
            or m.convert_one_to_many(3) != [] or m.convert_many_to_one(99) != -1:
        wit.append(dict(function='OneToManyMapLoader.save', input='save(1,[5,6]); save(2,{7})', observed=repr((m.one_to_many, m.many_to_one)),
                        clauses=['a-read-returns-the-non-empty-content-just-saved']))
    return wit, 1


def known_f9():
    m = OneToManyMapLoader('/nonexistent', ['a', 'b'])
    m.save(1, [5])
    m.save(1, [])
    got = m.convert_one_to_many(1)
    return got != [], f'save(1,[5]); save(1,[]); convert_one_to_many(1) = {got}'


def known_f13():
    m = OneToManyMapLoader('/nonexistent', ['a', 'b'])
    m.save(1, [5, 6])
    m.save(1, [5])
    got = m.convert_many_to_one(6)
    return got == 1, f'save(1,[5,6]); save(1,[5]); convert_many_to_one(6) = {got} (6 is no longer a member of 1)'


def search(target, models):
    wit, cases = [], 0
    for fn in (lambda: search_loader(4), search_lru, search_one_to_many, search_restore):
        w, c = fn()
        wit += w
        cases += c
    t = target.split('.')[-1]
    cls = target.split('.')[0]
    mine = [w for w in wit if w['function'].startswith(cls)]
    return dict(witnesses=(mine or wit)[:4], searched=f'{cases} histories: directed multi-export histories, save/get/export over 2 ids (cache capacities 1-3, row limits 1-3 / unlimited), LRU op sequences, one-to-many saves',
                how='real GeneralLoader subclass writing real bundle files; real LRUCache; real OneToManyMapLoader; compared with the last-saved model')


def replay(w):
    if isinstance(w, dict) and w.get('kind') == 'F13':
        ok, detail = known_f13()
        return dict(reproduced=ok, detail=detail)
    if isinstance(w, dict) and w.get('kind') == 'F9':
        ok, detail = known_f9()
        return dict(reproduced=ok, detail=detail)
    if isinstance(w, dict) and w.get('function', '').startswith('GeneralLoader'):
        i = w['input']
        r = run_history([tuple(o) for o in i['ops']], i['item_cache'], i['bundle_cache'], i['max_rows'])
        return dict(reproduced=bool(r), detail=r)
    out = search(w.get('function', '*') if isinstance(w, dict) else '*', [])
    return dict(reproduced=bool(out['witnesses']), detail=out['witnesses'][:1])


if __name__ == '__main__':
    if '--bounded' in sys.argv:
        depth = int(sys.argv[sys.argv.index('--bounded') + 1])
        w1, c1 = search_loader(depth)
        w2, c2 = search_lru()
        common.emit(dict(witnesses=w1 + w2, cases=c1 + c2, bound=f'{len(DIRECTED)} directed multi-export histories x 6 cache/row-limit settings; all save/get/export histories of length <= {depth} over 2 ids x 2 cache/row-limit settings '
                                                                  f'through real bundle files; all LRU op sequences of length 4 over 3 keys, capacities 0-2'))
        sys.exit(1 if (w1 or w2) else 0)
    common.main(search, replay)
