"""C17 replay / witness search on the real EventManager and event_return (small scope; a replay aid, never the deciding step)."""
import itertools
import common

import lian.events.event_return as er
from lian.events.event_manager import EventManager
from lian.events.handler_template import EventData, EventHandler
from lian.config.constants import EVENT_KIND
from lian.config import config


class Opt:
    debug = False
    event_handlers = []


def norm(r):
    if r is None or r == 0:
        return 0
    return (r & 14) | 1


RET = [None] + list(range(16))
EV = EVENT_KIND.GIR_LIST_GENERATED


def fresh_manager():
    m = EventManager(Opt())
    for k in m.event_handlers:
        del m.event_handlers[k][:]
    return m


def check_pure(target):
    wit = []
    def w(fn, args, got, want, clause):
        wit.append(dict(function=fn, input=[repr(a) for a in args], observed=repr(got), expected=repr(want), clauses=[clause]))
    for r in RET:
        if er.is_event_successfully_processed(r) != (r != 0): w('is_event_successfully_processed', [r], er.is_event_successfully_processed(r), r != 0, 'is-not-unprocessed')
        if er.is_event_unprocessed(r) != (r == 0): w('is_event_unprocessed', [r], er.is_event_unprocessed(r), r == 0, 'is-unprocessed')
    for r in range(16):
        for fn, bit in ((er.should_block_other_event_handlers, 2), (er.should_block_event_requester, 4), (er.should_interrupt_call, 8)):
            if fn(r) != (r & bit): w(fn.__name__, [r], fn(r), r & bit, 'bit-test')
        for fn, bit in ((er.config_continue_event_processing, 1), (er.config_block_other_event_handlers, 2),
                        (er.config_block_event_requester, 4), (er.config_interrupt_call, 8)):
            if fn(r) != (r | bit): w(fn.__name__, [r], fn(r), r | bit, 'sets-exactly-this-flag')
    if er.config_event_unprocessed() != 0: w('config_event_unprocessed', [], er.config_event_unprocessed(), 0, 'zero')
    for l in RET:
        for g in range(16):
            got = er.sync_event_return(l, g)
            if got != (g | norm(l)): w('sync_event_return', [l, g], got, g | norm(l), 'union')
    return [x for x in wit if target in ('*', x['function']) or target.endswith(x['function'])]


LANGSETS = [['python'], [config.ANY_LANG], ['javascript'], ['javascript', config.ANY_LANG], []]
RETS_SMALL = [None, 0, 1, 2, 3, 4, 5, 8, 10]


def run_notify(entries, lang='python', event=EV, register_via='direct'):
    """entries: list of (langs, ret). Returns (violated clauses, trace)"""
    m = fresh_manager()
    log = []
    def mk(k, ret):
        def h(data):
            log.append((k, data.in_data))
            data.out_data = ('out', k)
            return ret
        return h
    handlers = [mk(k, ret) for k, (langs, ret) in enumerate(entries)]
    for (langs, ret), h in zip(entries, handlers):
        m.register(EV, h, list(langs))
    d = EventData(lang, event, ('orig',))
    res = m.notify(d)
    bad = []
    n = len(entries)
    match = [lang in langs or config.ANY_LANG in langs for langs, _ in entries]
    known = event in m.event_handlers
    if not known:
        if res != 0 or log or d.out_data != ('orig',):
            bad.append('e-unknown-event-is-noop')
        return bad, dict(result=res, log=log)
    # expected run: matching handlers in order until the first blocker
    exp, acc, cur_in = [], 0, ('orig',)
    for k, (langs, ret) in enumerate(entries):
        if not match[k]:
            continue
        exp.append((k, cur_in))
        acc |= norm(ret)
        if norm(ret) & 2:
            break
        if ret != 0:
            cur_in = ('out', k)
    idx = [k for k, _ in log]
    if idx != [k for k, _ in exp]:
        if sorted(set(idx)) != idx or any(not match[k] for k in idx) or len(set(idx)) != len(idx):
            bad.append('a-exactly-matching-handlers-in-registration-order')
        bad.append('b-stops-after-first-blocker')
    elif [s for _, s in log] != [s for _, s in exp]:
        bad.append('c-each-sees-data-left-by-previous-successful')
    if res != acc and idx == [k for k, _ in exp]:
        bad.append('d-result-is-union-of-flags')
    return bad, dict(result=res, expected_result=acc, log=log, expected_log=exp)


def search_notify():
    wit = []
    n_cases = 0
    for n in range(0, 4):
        for langs in itertools.product(range(len(LANGSETS)), repeat=n):
            for rets in itertools.product(RETS_SMALL if n < 3 else [None, 0, 1, 2, 3], repeat=n):
                entries = [(LANGSETS[l], r) for l, r in zip(langs, rets)]
                for event in (EV, 12345):
                    n_cases += 1
                    bad, tr = run_notify(entries, event=event)
                    if bad:
                        wit.append(dict(function='EventManager.notify', input=dict(entries=entries, lang='python', event=event),
                                        observed=tr, clauses=bad))
                        if len(wit) >= 3:
                            return wit, n_cases
    return wit, n_cases


def search_register():
    wit = []
    n = 0
    for langs in ('python', {'python', 'go'}, ['python'], [config.ANY_LANG, 'x']):
        for event in (EV, EVENT_KIND.ORIGINAL_SOURCE_CODE_READY, 777):
            for pre in (0, 1, 2):
                n += 1
                m = fresh_manager()
                hs = [object() for _ in range(pre)]
                for h in hs:
                    m.register(EV, h, ['x'])
                before = {k: list(v) for k, v in m.event_handlers.items()}
                h = object()
                m.register(event, h, langs)
                after = {k: list(v) for k, v in m.event_handlers.items()}
                ok = set(before) == set(after)
                for k in before:
                    if k == event:
                        e = after[k][-1] if len(after[k]) == len(before[k]) + 1 else None
                        ok = ok and e is not None and after[k][:-1] == before[k] and e[1] is h and isinstance(e[0], list) and (
                            e[0] == [langs] if isinstance(langs, str) else sorted(e[0]) == sorted(langs))
                    else:
                        ok = ok and after[k] == before[k]
                if not ok:
                    wit.append(dict(function='EventManager.register', input=dict(event=event, langs=repr(langs), preexisting=pre),
                                    observed=repr(after.get(event)), clauses=['appends-to-exactly-that-event']))
    # the same handler registered again (another one in between) is a NEW entry at the end, not a change of the earlier entry
    for first_langs, second_langs in ((['python'], ['java']), (['python'], ['python']), ('python', ['go', 'java'])):
        n += 1
        m = fresh_manager()
        h1, h2 = object(), object()
        m.register(EV, h1, first_langs)
        m.register(EV, h2, ['java'])
        m.register(EV, h1, second_langs)
        got = [(list(e[0]), e[1]) for e in m.event_handlers.get(EV, [])]
        lst = lambda x: [x] if isinstance(x, str) else list(x)
        if got != [(lst(first_langs), h1), (['java'], h2), (lst(second_langs), h1)]:
            wit.append(dict(function='EventManager.register', input=dict(history=f'register(h1, {first_langs!r}); register(h2, ["java"]); register(h1, {second_langs!r})'),
                            observed=repr([(l_, 'h1' if h_ is h1 else 'h2') for l_, h_ in got]), clauses=['appends-to-exactly-that-event']))
    # register_list: order preserved
    m = fresh_manager()
    hs = [object() for _ in range(4)]
    m.register_list([EventHandler(event=EV, handler=hs[0], langs=['a']), EventHandler(event=777, handler=hs[1], langs=['a']),
                     EventHandler(event=EV, handler=hs[2], langs='b'), EventHandler(event=EVENT_KIND.ORIGINAL_SOURCE_CODE_READY, handler=hs[3], langs=['c'])])
    got = [(e[0], e[1]) for e in m.event_handlers[EV]]
    if got != [(['a'], hs[0]), (['b'], hs[2])] or [e[1] for e in m.event_handlers[EVENT_KIND.ORIGINAL_SOURCE_CODE_READY]] != [hs[3]]:
        wit.append(dict(function='EventManager.register_list', input='4 registrations over 3 events', observed=repr(got), clauses=['order']))
    return wit, n + 1


def search(target, models):
    wit, cases = [], 0
    t = target.split('.')[-1]
    if t in ('notify', '*') or 'notify' in target:
        w, c = search_notify(); wit += w; cases += c
    if t in ('register', 'add_handler', 'register_list', '*'):
        w, c = search_register(); wit += w; cases += c
    pure = check_pure(t if t not in ('notify', 'register', 'add_handler', 'register_list') else '-none-')
    wit += pure
    # a defect in an event_return helper shows up through notify as well
    if not wit and t not in ('notify',):
        w, c = search_notify(); wit += w; cases += c
    return dict(witnesses=wit[:5], searched=f'{cases} notify/register cases (<=3 handlers x 5 language lists x return values) + exhaustive flag tables',
                how='instrumented handlers on the real EventManager; clauses (a)-(e) of the contract evaluated concretely')


def replay(w):
    if w.get('function') == 'EventManager.notify':
        inp = w['input']
        bad, tr = run_notify([(l, r) for l, r in inp['entries']], inp.get('lang', 'python'), inp.get('event', EV))
        return dict(reproduced=bool(bad), detail=dict(clauses=bad, trace=tr))
    out = search(w.get('function', '*'), [])
    return dict(reproduced=bool(out['witnesses']), detail=out['witnesses'][:1])


if __name__ == '__main__':
    common.main(search, replay)
