# copied from the demonstration of seeded change C04-4 (see seeded/C04-4); used by c04_replay.py as part of the BOUNDED stand-in
#!/usr/bin/env python3
"""
C04: every concrete execution of a method is a path in its control-flow graph.

Small methods are written as (unflattened) GIR, flattened with lian's GIRProcessing, viewed through
GIRBlockViewer and handed to ControlFlowAnalysis.  For every method, every concrete execution (one per
decision "does the try body raise?") is listed as a sequence of statements; each execution must start
at an entry node (no predecessor), follow CFG edges only, and end with an edge to the exit node -1.
The CFG must not contain anything that is not a statement of the method.
"""
import builtins
builtins.profile = lambda f: f

import sys

from lian.lang.lang_analysis import GIRProcessing
from lian.util.data_model import DataModel
from lian.util.gir_block import GIRBlockViewer
from lian.basics.control_flow import ControlFlowAnalysis


class TinyLoader:
    def __init__(self):
        self.cfgs = {}

    def get_method_cfg(self, method_id):
        return self.cfgs.get(method_id)

    def save_method_cfg(self, method_id, cfg):
        self.cfgs[method_id] = cfg
        return cfg


def call(target, name, arg):
    return {"call_stmt": {"target": target, "name": name, "positional_args": str([arg])}}


def try_stmt(body, handlers, else_body=None, final_body=None):
    catch_body = []
    for exc, handler_body in handlers:
        catch_body.append({"catch_clause": {"expcetion": exc, "body": handler_body}})
    return {"try_stmt": {
        "body": body,
        "catch_body": catch_body,
        "else_body": else_body or [],
        "final_body": final_body or [],
    }}


def method(name, body):
    return [{"method_decl": {
        "name": name,
        "parameters": [{"parameter_decl": {"name": "a"}}],
        "body": body,
    }}]


T = call("t", "risky", "a")
H = call("h", "recover", "a")
H2 = call("h2", "recover_more", "a")
E = call("e", "finish", "t")
F = call("f", "cleanup", "a")
A = call("k", "after", "a")
R = {"return_stmt": {"name": "k"}}

# name -> (unflattened GIR, executions); an execution is a list of labels, "EXIT" is node -1
SCENARIOS = {
    "try/except": (
        method("m0", [try_stmt([T], [("ValueError", [H])]), A, R]),
        [["P", "TRY", "t", "k", "RET", "EXIT"],
         ["P", "TRY", "t", "CATCH0", "h", "k", "RET", "EXIT"]],
    ),
    "try/except/finally": (
        method("m1", [try_stmt([T], [("ValueError", [H])], final_body=[F]), A, R]),
        [["P", "TRY", "t", "f", "k", "RET", "EXIT"],
         ["P", "TRY", "t", "CATCH0", "h", "f", "k", "RET", "EXIT"]],
    ),
    "try/except/else": (
        method("m2", [try_stmt([T], [("ValueError", [H])], else_body=[E]), A, R]),
        [["P", "TRY", "t", "e", "k", "RET", "EXIT"],
         ["P", "TRY", "t", "CATCH0", "h", "k", "RET", "EXIT"]],
    ),
    "try/except/else/finally": (
        method("m3", [try_stmt([T], [("ValueError", [H])], else_body=[E], final_body=[F]), A, R]),
        [["P", "TRY", "t", "e", "f", "k", "RET", "EXIT"],
         ["P", "TRY", "t", "CATCH0", "h", "f", "k", "RET", "EXIT"]],
    ),
    "try/except/except/else, falls off the end": (
        method("m4", [try_stmt([T], [("ValueError", [H]), ("KeyError", [H2])], else_body=[E])]),
        [["P", "TRY", "t", "e", "EXIT"],
         ["P", "TRY", "t", "CATCH0", "h", "EXIT"],
         ["P", "TRY", "t", "CATCH1", "h2", "EXIT"]],
    ),
}


def build(gir):
    _, flat = GIRProcessing(10).flatten(gir)
    unit = DataModel(flat)
    decl = unit.query_index_column_value_first("stmt_id", flat[0]["stmt_id"])
    params = GIRBlockViewer(unit.read_block(decl.parameters))
    body = GIRBlockViewer(unit.read_block(decl.body))
    method_id = int(decl.stmt_id)
    cfg = ControlFlowAnalysis(TinyLoader(), method_id, params, body).analyze()

    labels = {"EXIT": -1}
    catch_counter = 0
    stmt_ids = set()
    for row in flat[1:]:
        op = row["operation"]
        if op in ("block_start", "block_end"):
            continue
        stmt_ids.add(row["stmt_id"])
        if op == "parameter_decl":
            labels["P"] = row["stmt_id"]
        elif op == "try_stmt":
            labels["TRY"] = row["stmt_id"]
        elif op == "catch_clause":
            labels[f"CATCH{catch_counter}"] = row["stmt_id"]
            catch_counter += 1
        elif op == "return_stmt":
            labels["RET"] = row["stmt_id"]
        elif op == "call_stmt":
            labels[row["target"]] = row["stmt_id"]
    return cfg, labels, stmt_ids


def problems():
    """the list of property violations over the five try-statement methods (empty when all executions are paths)"""
    problems = []
    for name, (gir, executions) in SCENARIOS.items():
        cfg, labels, stmt_ids = build(gir)
        edges = {(int(u), int(v)) for u, v in cfg.edges()}
        nodes = {int(n) for n in cfg.nodes()}

        foreign = nodes - stmt_ids - {-1}
        if foreign:
            problems.append(f"[{name}] CFG nodes that are not statements of the method: {sorted(foreign)}")

        for execution in executions:
            ids = [labels[x] for x in execution]
            if ids[0] not in nodes or any(v == ids[0] for _, v in edges):
                problems.append(f"[{name}] {execution}: first statement {execution[0]} is not an entry node")
            for (la, a), (lb, b) in zip(zip(execution, ids), zip(execution[1:], ids[1:])):
                if (a, b) not in edges:
                    problems.append(
                        f"[{name}] execution {' -> '.join(execution)}: no CFG edge {la}({a}) -> {lb}({b})"
                    )

    return problems


def main():
    ps = problems()
    for p in ps:
        print(p)
    print('FAIL' if ps else 'PASS')
    return 1 if ps else 0


if __name__ == "__main__":
    sys.exit(main())
