"""shared by the replay / witness-search drivers (run under /venv/bin/python with PYTHONPATH=/repo/src)"""
import builtins
import json
import sys

if not hasattr(builtins, 'profile'):
    builtins.profile = lambda f: f      # exactly what main.py does when line_profiler is absent


def parse_args(argv):
    a = {'mode': None, 'target': None, 'models': [], 'payload': None}
    i = 0
    while i < len(argv):
        if argv[i] == '--search':
            a['mode'], a['target'] = 'search', argv[i + 1]; i += 2
        elif argv[i] == '--models':
            try:
                a['models'] = json.loads(argv[i + 1])
            except Exception:
                a['models'] = []
            i += 2
        elif argv[i] == '--known':
            a['mode'], a['payload'] = 'known', json.loads(argv[i + 1]); i += 2
        elif argv[i] == '--replay':
            a['mode'], a['payload'] = 'replay', json.loads(argv[i + 1]); i += 2
        else:
            i += 1
    return a


def emit(obj):
    sys.stdout.write('\n' + json.dumps(obj, default=str) + '\n')
    sys.stdout.flush()


def main(search, replay):
    """search(target, models) -> dict(witnesses=[...], searched=str, how=str); replay(witness) -> dict(reproduced=bool, detail=str)"""
    a = parse_args(sys.argv[1:])
    if a['mode'] == 'search':
        out = search(a['target'], a['models'])
        emit(out)
        sys.exit(1 if out.get('witnesses') else 0)
    if a['mode'] in ('known', 'replay'):
        out = replay(a['payload'])
        emit(out)
        sys.exit(1 if out.get('reproduced') else 0)
    emit({'error': 'no mode'})
    sys.exit(2)
