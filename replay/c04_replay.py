"""C04 replay / witness search / BOUNDED stand-in: a small program family through the real ControlFlowAnalysis (real DataModel + GIRBlockViewer) against a reference
interpreter (c04_family.py: every branch-decision vector; first statement is an entry node, consecutive statements have an edge, leaving the method reaches -1, break/continue
go where their syntactic loop sends them, no foreign node)."""
import sys
import common
import c04_family as F

S, BRK, CNT, RET = F.S, F.BRK, F.CNT, F.RET
EXTRA = [
    [("while", "a", [("while", "a", [S], [BRK]), S], None), S],            # break in the else body of an inner loop
    [("while", "a", [("forin", [S], [CNT]), S], None), S],                 # continue in the else body of an inner loop
    [("while", "true", [("if", [BRK], None), S], [S]), S],                 # literal-true loop with else and break
    [("while", "a", [("if", [BRK], None), ("if", [BRK], None), S], [S]), RET],
]


# ---- several methods analysed by ONE process (as analyze_method does): no CFG may contain a statement of another method, and a method's first statement is an entry node
HCOLS = ["operation", "parent_stmt_id", "stmt_id", "name", "target", "operand", "condition", "body", "then_body", "else_body", "init_body", "condition_prebody",
         "update_body", "parameters", "receiver_object", "field", "source"]


def _row(op, parent, sid, **kw):
    r = {c: F.NAN for c in HCOLS}
    r.update(operation=op, parent_stmt_id=parent, stmt_id=sid)
    r.update(kw)
    return r


def _methods():
    # (name, method id, parameter rows, body rows, ids of its executable statements, first statement)
    out = []
    # void serve() { for (;;) { n = 1; if (c) break; m = 2; } }       C-style for without init/condition/update as FIRST statement of a parameterless method
    out.append(('serve', 100, None, [_row('for_stmt', 101, 102, body=103), _row('block_start', 102, 103), _row('assign_stmt', 103, 104, target='n', operand='1'),
                                     _row('if_stmt', 103, 105, condition='c', then_body=106), _row('block_start', 105, 106), _row('break_stmt', 106, 107),
                                     _row('block_end', 105, 106), _row('assign_stmt', 103, 108, target='m', operand='2'), _row('block_end', 102, 103)],
                {102, 104, 105, 107, 108}, 102))
    # void spin() { for (; flag; ) { k = 1; } x = 2; }
    out.append(('spin', 400, None, [_row('for_stmt', 401, 402, condition='flag', body=403), _row('block_start', 402, 403), _row('assign_stmt', 403, 404, target='k', operand='1'),
                                    _row('block_end', 402, 403), _row('assign_stmt', 401, 405, target='x', operand='2')], {402, 404, 405}, 402))
    # void loop() { while (a) { y = 1; } }
    out.append(('loop', 500, None, [_row('while_stmt', 501, 502, condition='a', body=503), _row('block_start', 502, 503), _row('assign_stmt', 503, 504, target='y', operand='1'),
                                    _row('block_end', 502, 503)], {502, 504}, 502))
    # int other(int q) { z = q; return z; }
    out.append(('other', 200, [_row('parameter_decl', 201, 202, name='q')], [_row('assign_stmt', 204, 206, target='z', operand='q'), _row('return_stmt', 204, 207, name='z')],
                {202, 206, 207}, 202))
    # int fourth() { return 4; }
    out.append(('fourth', 300, None, [_row('return_stmt', 301, 302, name='4')], {302}, 302))
    # void fifth() { v = 5; }
    out.append(('fifth', 600, None, [_row('assign_stmt', 601, 602, target='v', operand='5')], {602}, 602))
    return out


def process_history():
    from lian.basics.control_flow import ControlFlowAnalysis
    from lian.util.data_model import DataModel
    from lian.util.gir_block import GIRBlockViewer
    view = lambda rows: GIRBlockViewer(DataModel(rows, columns=HCOLS)) if rows else GIRBlockViewer(None)
    wit, cases = [], 0
    import itertools
    ms = _methods()
    for order in list(itertools.permutations(range(len(ms)), 3)):
        cases += 1
        names = [ms[i][0] for i in order]
        # a fresh process state cannot be had in-process for mutable defaults: a defect of that kind persists, which is exactly what the later methods then show
        for i in order:
            nm, mid, params, body, own, first = ms[i]
            try:
                g = ControlFlowAnalysis(F.StubLoader(), mid, view(params), view(body)).analyze()
            except Exception as e:
                wit.append(dict(function='ControlFlowAnalysis.analyze_for_stmt', input=f'methods analysed in one process, in order {names}', observed=[f'{nm}: exception {e!r}'],
                                clauses=['frame:list']))
                return wit, cases
            foreign = sorted(n for n in g.nodes() if n != -1 and n not in own)
            probs = []
            if foreign:
                probs.append(f'the CFG of {nm} (statements {sorted(own)}) contains statements of another method: {foreign}, edges {[e for e in g.edges() if e[0] in foreign or e[1] in foreign]}')
            if first in g.nodes() and any(p_ not in own for p_ in g.predecessors(first)):
                probs.append(f'the first statement {first} of {nm} is entered from a statement that is not its own: predecessors {sorted(g.predecessors(first))}')
            if probs:
                wit.append(dict(function='ControlFlowAnalysis.analyze_for_stmt', input=f'methods analysed in one process, in order {names}', observed=probs[:2], history=names,
                                clauses=['frame:list', 'no statement of another method', 'first statement is an entry node']))
                return wit, cases
    return wit, cases


def try_statements():
    """five methods with try / except / else / finally (c04_try.py): every listed execution (body completes or raises at its end, each handler) is a path"""
    import c04_try
    try:
        probs = c04_try.problems()
    except Exception as e:      # noqa
        probs = [f'exception {e!r}']
    if probs:
        return [dict(function='ControlFlowAnalysis.analyze_try_stmt', input='the five try-statement methods of c04_try.py', observed=probs[:3], tries=True,
                     clauses=['whenever B executes immediately after A the graph has the edge A to B', 'every fall-through reaches the exit node'])], 5
    return [], 5


def run_family(max_size):
    wit, cases = process_history()
    if wit:
        return wit, cases
    w2, c2 = try_statements()
    cases += c2
    if w2:
        return w2, cases
    bodies = list(EXTRA) + list(F.HAND_WRITTEN)
    for size in range(1, max_size + 1):
        bodies += list(F.gen_block(size, 2, False))
    for body in bodies:
        cases += 1
        try:
            g, probs = F.check_program(body)
        except Exception as e:
            probs = [f'exception {e!r}']
        if probs:
            wit.append(dict(function='ControlFlowAnalysis.analyze_while_stmt', input='\n'.join(F.show(body)), body=repr(body), observed=probs[:2],
                            clauses=['loop:', 'the-result-is-the-breaks', 'every-element-of-the-body-frontier', 'branch:', 'the-frontier-is']))
            if len(wit) >= 3:
                break
    return wit, cases


def search(target, models):
    wit, cases = run_family(3)
    return dict(witnesses=wit, searched=f'{cases} cases: 120 orders of 3 of 6 small methods (C-style for / while / plain, with and without parameters) analysed in one process; method bodies (<= 3 AST nodes, loops nested <= 2, plus hand-written and loop-else shapes) x all branch-decision vectors',
                how='real ControlFlowAnalysis.analyze() on GIR rows in a real DataModel/GIRBlockViewer; reference interpreter over the same body')


def replay(w):
    if isinstance(w, dict) and w.get('tries'):
        wit, _ = try_statements()
        return dict(reproduced=bool(wit), detail=wit[:1])
    if isinstance(w, dict) and w.get('history'):
        wit, _ = process_history()
        return dict(reproduced=bool(wit), detail=wit[:1])
    if isinstance(w, dict) and w.get('body'):
        body = eval(w['body'], {}, {})          # our own repr of a nested tuple/list of strings
        g, probs = F.check_program(body)
        return dict(reproduced=bool(probs), detail=probs[:2])
    out = search('*', [])
    return dict(reproduced=bool(out['witnesses']), detail=out['witnesses'][:1])


if __name__ == '__main__':
    if '--bounded' in sys.argv:
        n = int(sys.argv[sys.argv.index('--bounded') + 1])
        wit, cases = run_family(n)
        common.emit(dict(witnesses=wit, cases=cases, bound=f'120 orders of 3 of 6 small methods analysed in one process (foreign statements / entry node); 5 try/except/else/finally methods with their listed executions; every method body with <= {n} AST nodes over assignment, if/else, while (cond or literal true), for-in, loop else, break, '
                                                               f'continue, return (loops nested <= 2) + hand-written bodies, all branch-decision vectors (<= 6 decisions)'))
        sys.exit(1 if wit else 0)
    common.main(search, replay)
