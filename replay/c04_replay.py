"""C04 replay / witness search / BOUNDED stand-in: a small program family through the real ControlFlowAnalysis (real DataModel + GIRBlockViewer) against a reference
interpreter (c04_family.py: every branch-decision vector; first statement is an entry node, consecutive statements have an edge, leaving the method reaches -1, break/continue
go where their syntactic loop sends them, no foreign node)."""
import sys
import common
import c04_family as F

S, BRK, CNT, RET = F.S, F.BRK, F.CNT, F.RET
EXTRA = [
    [("while", "a", [("while", "a", [S], [BRK]), S], None), S],            # break in the else body of an inner loop
    [("while", "a", [("forin", [S], [CNT]), S], None), S],                 # continue in the else body of an inner loop
    [("while", "true", [("if", [BRK], None), S], [S]), S],                 # literal-true loop with else and break
    [("while", "a", [("if", [BRK], None), ("if", [BRK], None), S], [S]), RET],
]


def run_family(max_size):
    wit, cases = [], 0
    bodies = list(EXTRA) + list(F.HAND_WRITTEN)
    for size in range(1, max_size + 1):
        bodies += list(F.gen_block(size, 2, False))
    for body in bodies:
        cases += 1
        try:
            g, probs = F.check_program(body)
        except Exception as e:
            probs = [f'exception {e!r}']
        if probs:
            wit.append(dict(function='ControlFlowAnalysis.analyze_while_stmt', input='\n'.join(F.show(body)), body=repr(body), observed=probs[:2],
                            clauses=['loop:', 'the-result-is-the-breaks', 'every-element-of-the-body-frontier', 'branch:', 'the-frontier-is']))
            if len(wit) >= 3:
                break
    return wit, cases


def search(target, models):
    wit, cases = run_family(3)
    return dict(witnesses=wit, searched=f'{cases} method bodies (<= 3 AST nodes, loops nested <= 2, plus hand-written and loop-else shapes) x all branch-decision vectors',
                how='real ControlFlowAnalysis.analyze() on GIR rows in a real DataModel/GIRBlockViewer; reference interpreter over the same body')


def replay(w):
    if isinstance(w, dict) and w.get('body'):
        body = eval(w['body'], {}, {})          # our own repr of a nested tuple/list of strings
        g, probs = F.check_program(body)
        return dict(reproduced=bool(probs), detail=probs[:2])
    out = search('*', [])
    return dict(reproduced=bool(out['witnesses']), detail=out['witnesses'][:1])


if __name__ == '__main__':
    if '--bounded' in sys.argv:
        n = int(sys.argv[sys.argv.index('--bounded') + 1])
        wit, cases = run_family(n)
        common.emit(dict(witnesses=wit, cases=cases, bound=f'every method body with <= {n} AST nodes over assignment, if/else, while (cond or literal true), for-in, loop else, break, '
                                                               f'continue, return (loops nested <= 2) + hand-written bodies, all branch-decision vectors (<= 6 decisions)'))
        sys.exit(1 if wit else 0)
    common.main(search, replay)
