#!/bin/bash
# offline setup: nothing to build; verify the interpreters the checks need
set -e
cd "$(dirname "$0")"
python3-vt -c "import z3; assert z3.get_version_string().startswith('5.'), z3.get_version_string()"
/venv/bin/python -c "import pandas, networkx" 
test -d /repo/src/lian
mkdir -p evidence
echo setup-ok
